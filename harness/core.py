"""Core of the /verif check machinery: build, audit, driver, verdicts, evidence.

Run under /venv/bin/python. The implementation under test is ALWAYS /repo's working tree:
/repo is put first on sys.path and `paroxython.__file__` is asserted to live there (the venv also
holds an installed copy of the package, which must not be the one tested).
"""
import hashlib
import json
import os
import random
import re
import shutil
import subprocess
import sys
import tempfile
import time
from pathlib import Path

VERIF = Path(__file__).resolve().parent.parent
LEAN = VERIF / "lean"
REPO = Path(os.environ.get("PAROXY_REPO", "/repo"))
DRIVER_BIN = LEAN / ".lake" / "build" / "bin" / "pxdriver"
ALLOWED_AXIOMS = {"propext", "Classical.choice", "Quot.sound"}
FORBIDDEN = re.compile(
    r"\bsorry\b|\badmit\b|^\s*axiom\s|native_decide|bv_decide|implemented_by|\bunsafe\s|maxHeartbeats\s+0\b"
)


class MachineryError(Exception):
    """An internal error of the machinery (exit 2, never a VIOLATION)."""


def import_repo():
    """Put /repo first on sys.path and check that the package comes from there."""
    os.environ.setdefault("PAROXYTHON_VERIF", "1")
    p = str(REPO)
    if p in sys.path:
        sys.path.remove(p)
    sys.path.insert(0, p)
    for name in [m for m in sys.modules if m == "paroxython" or m.startswith("paroxython.")]:
        del sys.modules[name]
    import paroxython  # noqa

    f = os.path.realpath(paroxython.__file__)
    if not f.startswith(os.path.realpath(p) + os.sep):
        raise MachineryError(f"paroxython imported from {f}, not from {p}")
    return paroxython


def run(cmd, cwd=None, timeout=None, env=None, input=None):
    t = time.time()
    try:
        r = subprocess.run(
            cmd, cwd=cwd, timeout=timeout, env=env, input=input,
            stdout=subprocess.PIPE, stderr=subprocess.STDOUT, text=True,
        )
    except subprocess.TimeoutExpired as exc:
        raise MachineryError(f"timeout after {timeout}s: {cmd}") from exc
    return r.returncode, r.stdout, time.time() - t


# ----------------------------------------------------------------------------------------- Lean

def regenerate():
    code, out, _ = run([sys.executable, str(VERIF / "translator" / "gen.py")], timeout=120)
    if code != 0:
        raise MachineryError("translator crashed:\n" + out)
    return json.loads(out.strip().splitlines()[-1])


def lake_build(targets, timeout=3000):
    """Returns (ok, output, seconds)."""
    cmd = ["lake", "build"] + list(targets)
    code, out, dt = run(cmd, cwd=LEAN, timeout=timeout)
    return code == 0, out, dt


def strip_comments(text):
    """Remove Lean comments (nested block comments and line comments), keep strings."""
    out = []
    i, n, depth = 0, len(text), 0
    in_str = False
    while i < n:
        c = text[i]
        if depth == 0 and not in_str and c == '"':
            in_str = True
            out.append(c)
            i += 1
        elif in_str:
            if c == "\\" and i + 1 < n:
                out.append(text[i:i + 2])
                i += 2
                continue
            if c == '"':
                in_str = False
            out.append(c)
            i += 1
        elif text.startswith("/-", i):
            depth += 1
            i += 2
        elif depth > 0 and text.startswith("-/", i):
            depth -= 1
            i += 2
        elif depth > 0:
            if c == "\n":
                out.append(c)
            i += 1
        elif text.startswith("--", i):
            while i < n and text[i] != "\n":
                i += 1
        else:
            out.append(c)
            i += 1
    return "".join(out)


def forbidden_tokens():
    """grep the whole Lean library for sorry/axiom/native_decide/... outside comments."""
    hits = []
    for path in sorted((LEAN / "Paroxy").rglob("*.lean")):
        code = strip_comments(path.read_text(encoding="utf-8"))
        # string literals may legitimately contain words; drop them too
        code = re.sub(r'"(?:\\.|[^"\\])*"', '""', code)
        for no, line in enumerate(code.splitlines(), 1):
            if FORBIDDEN.search(line):
                hits.append(f"{path.relative_to(LEAN)}:{no}: {line.strip()[:120]}")
    return hits


def theorems_of(pid):
    """Names of the property theorems declared in Props/<pid>.lean, with their namespace."""
    path = LEAN / "Paroxy" / "Props" / f"{pid}.lean"
    code = strip_comments(path.read_text(encoding="utf-8"))
    ns = []
    names = []
    for line in code.splitlines():
        m = re.match(r"\s*namespace\s+(\S+)", line)
        if m:
            ns.append(m.group(1))
            continue
        m = re.match(r"\s*end\s+(\S+)", line)
        if m and ns and ns[-1] == m.group(1):
            ns.pop()
            continue
        m = re.match(r"\s*(?:private\s+|protected\s+)?theorem\s+(\S+)", line)
        if m:
            names.append(".".join(ns + [m.group(1)]))
    return names


def audit(pid, build_ok):
    """`#print axioms` of every property theorem. Returns dict name -> list of axioms, or
    None for a theorem that does not check.

    When the module built, it is imported (fast). Otherwise the source is re-elaborated with the
    `#print axioms` lines appended, so that the theorems that still check are told apart from
    those that do not (a failed proof shows `sorryAx`)."""
    names = theorems_of(pid)
    lines = [f"#print axioms {n}" for n in names]
    if build_ok:
        src = f"import Paroxy.Props.{pid}\n" + "\n".join(lines) + "\n"
    else:
        src = (LEAN / "Paroxy" / "Props" / f"{pid}.lean").read_text(encoding="utf-8") + "\n" + "\n".join(lines) + "\n"
    code, out, dt = run(["lake", "env", "lean", "--stdin"], cwd=LEAN, input=src, timeout=3000)
    result = {n: None for n in names}
    flat = re.sub(r"\s+", " ", out)
    for n in names:
        m = re.search(r"'" + re.escape(n) + r"' depends on axioms: \[([^\]]*)\]", flat)
        if m:
            result[n] = [a.strip() for a in m.group(1).split(",") if a.strip()]
        elif re.search(r"'" + re.escape(n) + r"' does not depend on any axioms", flat):
            result[n] = []
    errors = [l for l in out.splitlines() if "error" in l][:20]
    return result, errors, dt


def leanchecker(mods, timeout=3000):
    code, out, dt = run(["lake", "env", "leanchecker"] + mods, cwd=LEAN, timeout=timeout)
    return code == 0, out[-2000:], dt


class Driver:
    """The compiled Lean model driver, one JSON request per line."""

    def __init__(self):
        if not DRIVER_BIN.exists():
            raise MachineryError(f"{DRIVER_BIN} missing (run ./setup.sh)")
        self.p = subprocess.Popen(
            [str(DRIVER_BIN)], stdin=subprocess.PIPE, stdout=subprocess.PIPE, text=True, bufsize=1 << 20
        )
        self.calls = 0

    def call(self, op, **kw):
        kw["op"] = op
        self.p.stdin.write(json.dumps(kw, ensure_ascii=False) + "\n")
        self.p.stdin.flush()
        line = self.p.stdout.readline()
        if not line:
            raise MachineryError(f"driver died on {op}")
        self.calls += 1
        r = json.loads(line)
        if isinstance(r, dict) and "error" in r:
            raise MachineryError(f"driver error on {op}: {r['error']} :: {json.dumps(kw, ensure_ascii=False)[:300]}")
        return r

    def batch(self, reqs):
        """Send many requests, read many answers. A writer thread feeds stdin while this thread
        drains stdout, so the two pipes can never dead-lock on a full buffer."""
        import threading

        err = []

        def writer():
            try:
                for i in range(0, len(reqs), 500):
                    self.p.stdin.write("".join(json.dumps(r, ensure_ascii=False) + "\n" for r in reqs[i:i + 500]))
                self.p.stdin.flush()
            except Exception as exc:  # noqa
                err.append(exc)

        th = threading.Thread(target=writer, daemon=True)
        th.start()
        out = []
        for r in reqs:
            line = self.p.stdout.readline()
            if not line:
                raise MachineryError(f"driver died in batch ({err})")
            res = json.loads(line)
            if isinstance(res, dict) and "error" in res:
                raise MachineryError(f"driver error: {res['error']} :: {json.dumps(r, ensure_ascii=False)[:300]}")
            out.append(res)
        th.join()
        self.calls += len(reqs)
        return out

    def close(self):
        try:
            self.p.stdin.close()
            self.p.wait(timeout=10)
        except Exception:
            self.p.kill()


# ---------------------------------------------------------------------------------- check context

class Ctx:
    def __init__(self, pid, tier, seed):
        self.pid = pid
        self.tier = tier
        self.seed = seed
        self.rng = random.Random(f"{pid}-{seed}")
        self.t0 = time.time()
        self.cov = {
            "evaluations": 0, "distinct_nontrivial": 0, "rule": "", "samples": [],
            "obligations": 0, "discharged": 0, "checker_cmd": "", "trusted_base": [],
            "disagreements_checked": 0, "streams": {}, "distribution": {},
        }
        self.assumptions = []
        self.violations = []  # (replay_obj, no_input_found: bool, what)
        self.known_hits = []
        self.notes = []
        self._distinct = set()
        self.scratch = None
        self.proofs_ok = True
        self.broken = []  # names of theorems / correspondences that no longer check

    # -- scratch dir outside /repo and /verif
    def scratch_dir(self):
        if self.scratch is None:
            self.scratch = Path(tempfile.mkdtemp(prefix=f"pxverif-{self.pid}-"))
        return self.scratch

    def cleanup(self):
        if self.scratch is not None:
            shutil.rmtree(self.scratch, ignore_errors=True)

    # -- coverage accounting
    def count(self, stream, case_key=None, nontrivial=False, n=1):
        self.cov["evaluations"] += n
        s = self.cov["streams"].setdefault(stream, {"evaluations": 0, "distinct_nontrivial": 0})
        s["evaluations"] += n
        if nontrivial and case_key is not None:
            h = hashlib.blake2b(repr((stream, case_key)).encode(), digest_size=8).digest()
            if h not in self._distinct:
                self._distinct.add(h)
                self.cov["distinct_nontrivial"] += 1
                s["distinct_nontrivial"] += 1

    def dist(self, key, n=1):
        d = self.cov["distribution"]
        d[key] = d.get(key, 0) + n

    def sample(self, obj, limit=6):
        if len(self.cov["samples"]) < limit:
            self.cov["samples"].append(obj)

    def elapsed(self):
        return time.time() - self.t0


def load_known():
    path = VERIF / "known_findings.json"
    if not path.exists():
        return []
    return json.loads(path.read_text(encoding="utf-8"))["findings"]


def write_replay(ctx, name, obj):
    d = VERIF / "replays"
    d.mkdir(exist_ok=True)
    path = d / f"{ctx.pid}-{name}.json"
    path.write_text(json.dumps(obj, indent=1, ensure_ascii=False, default=str), encoding="utf-8")
    return path.relative_to(VERIF)


def prove(ctx, extra_targets=(), thorough_checker=True):
    """Steps 1-3 of the protocol: regenerate, build, audit. Fills the proof part of the evidence
    and returns True iff every obligation is discharged."""
    pid = ctx.pid
    gen = regenerate()
    ctx.cov["translator"] = gen
    targets = [f"Paroxy.Props.{pid}"]
    ok_d, out_d, dt_d = lake_build(["pxdriver"])
    if not ok_d:
        raise MachineryError("pxdriver does not build:\n" + out_d[-3000:])
    ok, out, dt = lake_build(targets + list(extra_targets))
    cmds = [f"lake build pxdriver ({dt_d:.1f}s)", f"lake build {' '.join(targets)} ({dt:.1f}s)"]
    res, errors, dta = audit(pid, ok)
    cmds.append(f"lake env lean --stdin <#print axioms of {len(res)} theorems of Props/{pid}.lean> ({dta:.1f}s)")
    hits = forbidden_tokens()
    cmds.append("grep sorry|admit|axiom|native_decide|bv_decide|implemented_by|unsafe|maxHeartbeats 0 (outside comments) over lean/Paroxy")
    discharged = 0
    per = {}
    for n, ax in res.items():
        good = ax is not None and set(ax) <= ALLOWED_AXIOMS
        per[n] = ax if ax is not None else "DOES-NOT-CHECK"
        if good:
            discharged += 1
        else:
            ctx.broken.append(n)
    ctx.cov["obligations"] = len(res)
    ctx.cov["discharged"] = discharged
    ctx.cov["theorems"] = per
    ctx.cov["forbidden_token_hits"] = hits
    if ctx.tier == "thorough" and ok and thorough_checker:
        okc, outc, dtc = leanchecker([f"Paroxy.Props.{pid}"])
        cmds.append(f"lake env leanchecker Paroxy.Props.{pid} ({dtc:.1f}s) -> {'ok' if okc else 'FAILED'}")
        ctx.cov["leanchecker_ok"] = okc
        if not okc:
            ctx.broken.append("leanchecker")
            ctx.notes.append(outc)
    ctx.cov["checker_cmd"] = " ; ".join(cmds)
    if not ok:
        ctx.cov["build_errors"] = [l for l in out.splitlines() if "error" in l][:20] + errors[:10]
    ctx.proofs_ok = ok and discharged == len(res) and len(res) > 0 and not hits and "leanchecker" not in ctx.broken
    if hits:
        ctx.broken.append("forbidden-tokens")
    return ctx.proofs_ok


BASE_TRUST = [
    "Lean 4.33.0 kernel (thorough tier: re-checked by leanchecker); axioms allowed: propext, Classical.choice, Quot.sound (audited per theorem on every run)",
    "the formal reading of the property text (lean/Paroxy/Spec, lean/Paroxy/Props)",
    "the correspondence harness (/verif/harness) and the driver's JSON glue (lean/Driver): agreement of hand-written models with the Python is established by differential testing",
]


def finish(ctx):
    """Write the evidence, print the verdict lines, return the exit code."""
    if isinstance(ctx.cov.get("theorems"), dict):
        # the list of proved theorems is what the audit saw in this run, never a hand-kept list
        ctx.cov["proved"] = [n.split(".")[-1] for n, ax in ctx.cov["theorems"].items() if ax != "DOES-NOT-CHECK"]
    known = [k for k in load_known() if k.get("property") == ctx.pid and k.get("status") == "finding"]
    real = []
    printed = set()
    for v in ctx.violations:
        sig = v.get("signature")
        hit = next((k for k in known if sig is not None and k.get("signature") == sig), None)
        if hit is not None:
            if hit["id"] not in printed:
                print(f"KNOWN-FINDING: property={ctx.pid} {hit['what']}")
                printed.add(hit["id"])
            ctx.known_hits.append(hit["id"])
        else:
            real.append(v)
    tr = (ctx.cov.get("translator") or {}).get("CompareSpans") or {}
    if real and tr.get("ok") is False and ctx.pid != "C08":
        # The translator could not read compare_spans.py: the model's relation table is empty, every disagreement of
        # this run may be an artefact of that. Not a failing input of THIS property: say what no longer checks
        # (./check C08 is the check that searches the relation table for a failing pair of spans).
        real = [{
            "what": "the translator could not read compare_spans.py; the correspondence of this check cannot be evaluated",
            "no_input": True,
            "name": "translator",
            "replay": {"kind": "no-failing-input-found",
                       "no_longer_checks": [f"translator:compare_spans.py ({tr.get('error')}) — the relation table of the model is "
                                            f"empty; {len(real)} disagreement(s) of this run are not reported as failing inputs of "
                                            f"{ctx.pid}; see ./check C08"]},
        }]
    code = 0
    lines = []
    if real:
        code = 1
        # concrete failing inputs first
        real.sort(key=lambda v: v.get("no_input", False))
        v = real[0]
        name = v.get("name") or ("corr" if v.get("no_input") else f"seed{ctx.seed}")
        path = write_replay(ctx, name, v["replay"])
        tail = " no-failing-input-found" if v.get("no_input") else ""
        lines.append(f"VIOLATION property={ctx.pid} replay={path}{tail}")
    ev = {
        "property_id": ctx.pid,
        "tier": ctx.tier,
        "seed": ctx.seed,
        "level": "proof",
        "coverage": ctx.cov,
        "assumptions": ctx.assumptions,
        "wall_s": round(ctx.elapsed(), 2),
        "violations": len(real),
        "known_findings_hit": sorted(set(ctx.known_hits)),
        "broken": ctx.broken,
        "notes": ctx.notes,
    }
    # evidence of a run against a patched copy of the repository (seed trials) must never replace the
    # committed evidence of the unchanged tree
    ev_dir = Path(os.environ.get("VERIF_EVIDENCE_DIR") or (VERIF / "evidence"))
    ev_dir.mkdir(parents=True, exist_ok=True)
    (ev_dir / f"{ctx.pid}.json").write_text(
        json.dumps(ev, indent=1, ensure_ascii=False, default=str), encoding="utf-8"
    )
    for l in lines:
        print(l)
    if code == 0:
        print(
            f"OK property={ctx.pid} tier={ctx.tier} seed={ctx.seed} obligations={ctx.cov['obligations']} "
            f"discharged={ctx.cov['discharged']} evaluations={ctx.cov['evaluations']} "
            f"distinct_nontrivial={ctx.cov['distinct_nontrivial']} wall={ctx.elapsed():.1f}s"
        )
    return code
