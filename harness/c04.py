"""C04 — include / exclude / impart / hide implement the documented set algebra."""
from . import core, filt

TRUST = core.BASE_TRUST + [
    "hand-written model of filter_programs.py / run_pipeline's command parsing (Model/Filter.lean), tied by this differential run",
    "regex oracle (R1): pattern matching on names is a parameter of the theorems; the harness computes it with the real `regex` "
    "module (`compile(pat + r'\\b').match` for taxa, `compile(pat).match` for paths)",
    "database well-formedness Ctx.WF (hypothesis of the theorems): generated databases satisfy it by construction; C11 proves it of make_db's output",
    "predicates go through the C16 model and the translator-generated C08 table",
]


def streams(ctx, drv, n_random, single_ops):
    rng = ctx.rng
    n_dis = 0
    # 1. single-command pipelines over every operation shape (C04 is about one update_filter call)
    for i in range(n_random):
        db = filt.gen_db(rng)
        if i % 3 == 0:
            cmds = [filt.gen_command(rng, db, ops=single_ops)]
            stream = "single-command"
        else:
            cmds = filt.gen_pipeline(rng, db, rng.randint(0, 5))
            stream = "pipeline"
        steps = i % 5 == 0
        eq, impl, model = filt.compare(db, cmds, drv, steps=steps)
        key = repr((sorted(db["programs"]), cmds, impl.get("final")))
        ctx.count(stream, key, nontrivial=filt.nontrivial(impl, db))
        for c in cmds:
            ctx.dist("op:" + c["operation"])
            for crit in c["data"]:
                ctx.dist("criterion:" + ("triple" if not isinstance(crit, str) else ("program" if crit.endswith(".py") else "taxon")))
        ctx.dist("outcome:" + (impl.get("exc") or "ok"))
        ctx.dist("imports:" + ("yes" if any(db["importations"].values()) else "no"))
        if len(ctx.cov["samples"]) < 3 and filt.nontrivial(impl, db) and len(db["programs"]) <= 3:
            ctx.sample({"db_programs": {p: v["taxa"] for p, v in db["programs"].items()}, "importations": db["importations"],
                        "cmds": cmds, "impl_final": impl.get("final"), "model_final": model.get("final")})
        if not eq:
            n_dis += 1
            if n_dis <= 3:
                filt.report_disagreement(ctx, "run_pipeline differs from the documented set algebra", db, cmds, drv, steps=steps)
    return n_dis


def import_quantifier_stream(ctx, drv, n):
    """Import chains × the `all` quantifier × taxon patterns: where `exclude all` counts an importer as meeting a
    taxon pattern through its imports (seeded change C04-b was missed by one seed of the generic stream)."""
    rng = ctx.rng
    n_dis = 0
    for i in range(n):
        db = filt.gen_db(rng, max_programs=5, min_programs=3, import_p=1.0, edge_p=0.5)
        names = list(db["taxa"]) or ["a"]
        op = rng.choice(["exclude all", "exclude all", "exclude", "include all", "exclude any"])
        crits = []
        for _ in range(rng.choice([2, 2, 3])):
            r = rng.random()
            if r < 0.7:
                metas = [t for t in names if t.startswith("meta/") and t != "meta/program"]
                t = rng.choice(metas) if metas and rng.random() < 0.3 else rng.choice(names)
                crits.append(t if rng.random() < 0.6 else t[: rng.randint(1, len(t))])
            elif r < 0.85:
                crits.append(rng.choice(list(db["programs"])))
            else:
                crits.append(filt.gen_criterion(rng, db, "exclude", triple_p=1.0, bad_ok=False))
        prefix = [filt.gen_command(rng, db, odd=False, bad_ok=False)] if rng.random() < 0.3 else []
        cmds = prefix + [{"operation": op, "data": crits}]
        taxon_crits = [c for c in crits if isinstance(c, str) and not c.endswith(".py")]
        if taxon_crits and rng.random() < 0.6:
            # the filter goes on with a command resolving to the same taxa: a criterion denotes the same programs whatever
            # an earlier `exclude` (which follows the importers) computed for it (seeded change C04-e: memo altered in place)
            again = rng.choice(taxon_crits)
            op2 = rng.choice(["include", "include", "include all", "exclude all", "impart"])
            data2 = [again] + ([rng.choice(taxon_crits)] if op2.endswith("all") and rng.random() < 0.5 else [])
            cmds.append({"operation": op2, "data": data2})
        eq, impl, model = filt.compare(db, cmds, drv)
        ctx.count("import chains × all-quantifier", repr((sorted(db["programs"]), db["importations"], cmds)),
                  nontrivial=filt.nontrivial(impl, db))
        if not eq:
            n_dis += 1
            if n_dis <= 2:
                filt.report_disagreement(ctx, "run_pipeline differs from the documented set algebra", db, cmds, drv)
    return n_dis


def spelling_stream(ctx, drv, n_keys):
    """'whose spans are in the stated relation', however the relation is spelled: every Allen name and synonym, every
    abbreviation, and formula spellings of canonical keys (`<=`, `==`, indices, spaces, upper case), on a database
    holding one program per ordered pair of line intervals of a 4-line listing — so that any two different relations
    differ on some program (single-line spans cannot tell `equals` from `meets`: seeded change C04-j resolved the
    spellings `x == y` / `x = y` to `meets`)."""
    rng = ctx.rng
    ivs = [[a, b] for a in range(1, 5) for b in range(a, 5)]
    programs = {}
    for i, s1 in enumerate(ivs):
        for j, s2 in enumerate(ivs):
            programs[f"p{i}{j}.py"] = {"source": "l1\nl2\nl3\nl4", "taxa": {"A": [s1], "B": [s2]}, "labels": {}}
    paths = sorted(programs)
    db = {"programs": {p: programs[p] for p in paths}, "taxa": {"A": paths, "B": paths}, "labels": {},
          "importations": {p: [] for p in paths}, "exportations": {p: [] for p in paths}}
    T = drv.call("c16.tables")
    spellings = [n for n, _ in T["aliases"]] + [a for a, _ in T["abbreviations"]]
    spellings += ["x == y", "x = y", "y == x", "x1 == y1", "X==Y", "(x = y)", "is x == y", "x1=y1<=x2=y2", "x == y <= x == y"]
    reqs = []
    for k in rng.sample(T["keys"], n_keys):
        style = {"up": [rng.random() < 0.3 for _ in range(4)], "idx": [rng.choice([None, None, 1, 2]) for _ in range(4)],
                 "ops": [rng.choice("ca") for _ in range(3)], "junk": [rng.choice(["", "", " "]) for _ in range(8)]}
        reqs.append({"op": "c16.render", "key": k, "style": style})
    spellings += [r["s"] for r in drv.batch(reqs)]
    n_dis = 0
    for sp in spellings:
        pre, post = rng.choice([("", ""), ("", ""), ("", ""), ("not ", ""), ("!", ""), ("", " not")])
        op = rng.choice(["include", "include", "exclude", "impart"])
        cmds = [{"operation": op, "data": [["A", pre + sp + post, "B"]]}]
        eq, impl, model = filt.compare(db, cmds, drv)
        ctx.count("relation spellings × all interval pairs", repr(cmds), nontrivial=filt.nontrivial(impl, db))
        ctx.dist("spelling-outcome:" + (impl.get("exc") or "ok"))
        if not eq:
            n_dis += 1
            if n_dis <= 2:
                filt.report_disagreement(ctx, "run_pipeline differs from the documented set algebra", db, cmds, drv)
    return n_dis


def literal_stream(ctx, drv):
    """R3: for literal patterns, the oracle, the Lean definition 'prefix up to a word boundary' and the engine agree."""
    import regex

    names = filt.TAXA_POOL
    bad = 0
    for t in names:
        for cut in range(1, len(t) + 1):
            pat = t[:cut]
            if regex.escape(pat) != pat.replace("/", "\\/") and regex.escape(pat) != pat:
                continue
            real = [n for n in names if regex.compile(f"{pat}\\b").match(n)]
            lean = drv.call("flt.literal", pattern=pat, names=names)
            ctx.count("literal-pattern three-way", pat, nontrivial=bool(real))
            if real != lean:
                bad += 1
                ctx.broken.append("corr:literal-pattern")
                ctx.notes.append({"literal": pat, "engine": real, "lean": lean})
    return bad


def parse_stream(ctx, drv):
    import regex

    ops = filt.OPERATIONS + filt.ODD_OPERATIONS + ["include any all", "exclude all any", " all", "hide any", "impart all"]
    for s in ops:
        op, n = regex.subn(" all", "", s)
        q = n == 1
        op = op.replace(" any", "")
        real = [op, q] if op in ("include", "exclude", "impart", "hide") else None
        m = drv.call("flt.parseOp", operation=s)
        ctx.count("operation-strings", s, nontrivial=True)
        if real != m:
            ctx.violations.append({"what": f"operation string {s!r} parsed differently", "replay": {"kind": "parse", "operation": s, "impl": real, "model": m}})


def run(ctx):
    core.prove(ctx)
    core.import_repo()
    drv = core.Driver()
    try:
        n = 700 if ctx.tier == "quick" else 100000
        n_dis = streams(ctx, drv, n, None)
        n_dis += import_quantifier_stream(ctx, drv, 600 if ctx.tier == "quick" else 40000)
        n_dis += spelling_stream(ctx, drv, 40 if ctx.tier == "quick" else 162)
        n_dis += literal_stream(ctx, drv)
        parse_stream(ctx, drv)
        ctx.cov["disagreements_checked"] = n_dis
    finally:
        drv.close()
    ctx.cov["rule"] = (
        "random well-formed tag databases (1-6 programs, taxa sharing string prefixes, span multisets with duplicates, transitively "
        "closed import DAGs) × pipelines of 0-5 commands (all operations/quantifiers, program/taxon/regex patterns, positive and negated "
        "triples with spellings of C16); every 5th case also compares the state after each command. Non-trivial = the pipeline changed "
        "one of the four sets and the final selection is neither empty nor everything; distinct = distinct (programs, commands, result)."
    )
    ctx.cov["trusted_base"] = TRUST
    ctx.cov["proved"] = ["C04_include", "C04_include_all", "C04_exclude", "C04_exclude_all", "C04_error", "C04_impart", "C04_hide", "C04_parse"]
    ctx.assumptions += ["Ctx.WF (database well-formedness)", "criteria of impart/hide are strings (the code applies str() to anything else)"]
    finish_tie(ctx)
    return core.finish(ctx)


def finish_tie(ctx):
    ctx.broken = sorted(set(ctx.broken))
    if not ctx.violations and (not ctx.proofs_ok or ctx.broken):
        ctx.violations.append({
            "no_input": True, "what": "proof or correspondence no longer checks",
            "replay": {"kind": "no-failing-input-found", "no_longer_checks": ctx.broken, "notes": ctx.notes[:10],
                       "build_errors": ctx.cov.get("build_errors")},
        })


def replay(ctx, path):
    return filt.replay(ctx, path)
