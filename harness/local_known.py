"""Findings recorded by a property's own engineer but not (yet) merged into the shared
known_findings.json: notes/findings/<Cxx>.known.json, same entry schema
({"id", "property", "status": "finding", "signature", "what"}).

`apply(ctx)` must be called just before `core.finish(ctx)`: a violation whose signature is listed there
is printed as KNOWN-FINDING (once per id) and removed from the list that decides the exit code —
exactly what core.finish does for the entries of known_findings.json. Entries already present in
known_findings.json are left to core.finish.
"""
import json

from . import core


def load(pid):
    path = core.VERIF / "notes" / "findings" / f"{pid}.known.json"
    if not path.exists():
        return []
    data = json.loads(path.read_text(encoding="utf-8"))
    return [k for k in data.get("findings", []) if k.get("property") == pid and k.get("status") == "finding"]


def apply(ctx):
    shared = {k.get("signature") for k in core.load_known() if k.get("property") == ctx.pid}
    local = [k for k in load(ctx.pid) if k.get("signature") not in shared]
    keep = []
    printed = set()
    for v in ctx.violations:
        sig = v.get("signature")
        hit = next((k for k in local if sig is not None and k.get("signature") == sig), None)
        if hit is None:
            keep.append(v)
            continue
        if hit["id"] not in printed:
            print(f"KNOWN-FINDING: property={ctx.pid} {hit['what']}")
            printed.add(hit["id"])
        ctx.known_hits.append(hit["id"])
        ctx.cov.setdefault("known_finding_replays", {}).setdefault(hit["id"], v.get("replay"))
    ctx.violations = keep


def unexplained(ctx):
    """The violations that neither known_findings.json nor the local file explains."""
    sigs = {k.get("signature") for k in core.load_known()
            if k.get("property") == ctx.pid and k.get("status") == "finding"}
    sigs |= {k.get("signature") for k in load(ctx.pid)}
    return [v for v in ctx.violations if v.get("signature") is None or v.get("signature") not in sigs]
