"""C07 — learning costs follow the longest imparted prefix and the current knowledge."""
import contextlib
import io
from fractions import Fraction

from . import c07_shared, core, filt
from .c04 import finish_tie

EDGES = ["a", "b", "c", "meta", "x_y", "flow", "loop", "1", "b-", ""]


def gen_taxon(rng, maxdepth=8):
    d = rng.randint(1, maxdepth)
    t = "/".join(rng.choice(EDGES[:9]) for _ in range(d))
    if rng.random() < 0.1:
        t = "meta/" + t
    if rng.random() < 0.03:
        t = t + "/"  # empty last edge
    return t


def gen_knowledge(rng, taxa, closed):
    K = set()
    for t in taxa:
        if rng.random() < 0.5:
            edges = t.split("/")
            k = rng.randint(1, len(edges))
            if closed:
                for i in range(1, k + 1):
                    K.add("/".join(edges[:i]))
            else:
                K.add("/".join(edges[:k]))
    return K


def frac(x):
    f = Fraction(x)
    return f"{f.numerator}/{f.denominator}"


def run(ctx):
    core.prove(ctx)
    core.import_repo()
    from paroxython.assess_costs import LearningCostAssessor

    drv = core.Driver()
    rng = ctx.rng
    n_dis = 0
    maxdepth_seen, maxtotal_seen = 0, Fraction(0)
    try:
        # (a) single taxon costs, fresh assessor, both strategies
        n = 1500 if ctx.tier == "quick" else 200000
        for i in range(n):
            strat = rng.choice(["zeno", "linear"])
            taxa = [gen_taxon(rng, 40 if i % 10 == 0 else 8) for _ in range(rng.randint(1, 6))]
            K = gen_knowledge(rng, taxa, closed=rng.random() < 0.7)
            a = LearningCostAssessor({}, strat)
            a.set_imparted_knowledge(set(K))
            real = [frac(a.taxon_cost(t)) for t in taxa]
            model = drv.call("cost.taxon", strategy=strat, knowledge=sorted(K), taxa=taxa)
            maxdepth_seen = max(maxdepth_seen, max(len(t.split("/")) for t in taxa))
            ctx.count("taxon_cost (fresh assessor)", repr((strat, sorted(K), taxa)), nontrivial=any(r != "0/1" for r in real))
            ctx.dist("strategy:" + strat)
            if real != model:
                n_dis += 1
                j = next(j for j in range(len(taxa)) if real[j] != model[j])
                ctx.violations.append({
                    "what": f"taxon_cost({taxa[j]!r}) = {real[j]} but the cost formula gives {model[j]}",
                    "replay": {"kind": "taxon-cost", "strategy": strat, "knowledge": sorted(K), "taxon": taxa[j], "impl": real[j],
                               "model(=spec, by C07_taxon)": model[j]},
                })
        # (b) histories on one assessor (and a second, interleaved one: the cache is class-level)
        m = 300 if ctx.tier == "quick" else 50000
        for i in range(m):
            strat = rng.choice(["zeno", "linear"])
            pool = [gen_taxon(rng, 6) for _ in range(6)]
            progs = {}
            for p in rng.sample(filt.PROG_POOL, rng.randint(1, 4)):
                progs[p] = {"taxa": {t: [[1, 1]] for t in rng.sample(pool, rng.randint(0, 5))}}
            a = LearningCostAssessor(progs, strat)
            K0 = gen_knowledge(rng, pool, closed=True)
            shared = set(K0)  # one set object, mutated in place and passed again (what Recommendations does)
            a.set_imparted_knowledge(shared)
            other = LearningCostAssessor(progs, strat) if rng.random() < 0.4 else None
            if other is not None:
                # NB: constructing `other` clears the class-level cache: harmless, but exercise it
                other.set_imparted_knowledge(gen_knowledge(rng, pool, closed=True))
            ops, real = [], []
            for _ in range(rng.randint(2, 12)):
                r = rng.random()
                if r < 0.3:
                    K = gen_knowledge(rng, pool, closed=rng.random() < 0.8)
                    if rng.random() < 0.5:
                        # the caller's own set, changed in place, is handed over again
                        if rng.random() < 0.5:
                            shared.update(K)
                        else:
                            shared.clear()
                            shared.update(K)
                        a.set_imparted_knowledge(shared)
                        ops.append({"kind": "set", "knowledge": sorted(shared), "in_place": True})
                    else:
                        shared = set(K)
                        a.set_imparted_knowledge(shared)
                        ops.append({"kind": "set", "knowledge": sorted(K)})
                    real.append(None)
                elif r < 0.65:
                    t = rng.choice(pool)
                    ops.append({"kind": "taxon", "taxon": t})
                    real.append(frac(a.taxon_cost(t)))
                else:
                    sel = rng.sample(list(progs), rng.randint(0, len(progs)))
                    ops.append({"kind": "assess", "selected": sel})
                    res = a(set(sel))
                    real.append([[frac(c), p] for c, p in res])
                    for c, p in res:
                        maxtotal_seen = max(maxtotal_seen, Fraction(c))
                if other is not None and rng.random() < 0.3:
                    other.taxon_cost(rng.choice(pool))
            req_progs = [[p, [[t, s] for t, s in info["taxa"].items()]] for p, info in progs.items()]
            out = drv.call("cost.history", strategy=strat, programs=req_progs, ops=ops, knowledge0=sorted(K0))
            n_sets = sum(1 for o in ops if o["kind"] == "set")
            ctx.count("assessor histories", repr((strat, ops)), nontrivial=n_sets >= 1 and len(ops) - n_sets >= 2)
            ctx.dist("history:len=%d" % len(ops))
            if real != out["spec"]:
                n_dis += 1
                j = next(j for j in range(len(ops)) if real[j] != out["spec"][j])
                ctx.violations.append({
                    "what": "an assessment does not reflect the imparted knowledge at the time it is made",
                    "replay": {"kind": "assessor-history", "strategy": strat, "programs": progs, "knowledge0": sorted(K0), "ops": ops[: j + 1],
                               "impl_outputs": real[: j + 1], "spec_outputs(pure recomputation)": out["spec"][: j + 1]},
                })
            elif real != out["model"]:
                ctx.broken.append("corr:assessor-history")
            if len(ctx.cov["samples"]) < 2 and n_sets >= 1:
                ctx.sample({"strategy": strat, "ops": ops[:5], "impl": real[:5], "model": out["model"][:5]})
        # (c) recommender: run_pipeline 1-3 times on ONE Recommendations object: the assessed costs must be those of the
        # current selection under the current knowledge. The expectation comes from the Lean model run on the
        # concatenated commands (the filter state carries over between calls). NB: never build a second
        # LearningCostAssessor here: its constructor clears the class-level memo and would hide a stale cache.
        from paroxython.recommend_programs import Recommendations
        import copy

        k = 300 if ctx.tier == "quick" else 40000
        for i in range(k):
            db = filt.gen_db(rng)
            strat = rng.choice(["zeno", "linear"])
            d = copy.deepcopy(db)
            runs = [[filt.gen_command(rng, db, ops=["impart", "include", "exclude", "impart", "impart"], odd=False, bad_ok=False, triple_p=0.15)
                     for _ in range(rng.randint(0, 3))] for _ in range(rng.randint(1, 3))]
            got = None
            with contextlib.redirect_stdout(io.StringIO()), contextlib.redirect_stderr(io.StringIO()):
                try:
                    rec = Recommendations(d, assessment_strategy=strat)
                    for cmds in runs:
                        rec.run_pipeline(filt.to_py_cmds(cmds))
                    got = [[frac(c), p] for c, p in rec.assessed_programs]
                except Exception as exc:  # noqa
                    got = {"exc": type(exc).__name__}
            flat = [c for cmds in runs for c in cmds]
            model = drv.call(**filt.model_request(db, flat, strat))
            expected = model.get("ranking") if "exc" not in model else {"exc": model["exc"]}
            ctx.count("recommender runs", repr((sorted(db["programs"]), runs, strat)), nontrivial=len(runs) >= 2 and bool(flat))
            ctx.dist("recommender:runs=%d" % len(runs))
            if got != expected:
                n_dis += 1
                ctx.violations.append({
                    "what": "assessed costs after several run_pipeline calls do not reflect the current imparted knowledge",
                    "replay": {"kind": "recommender-history", "db": db, "strategy": strat, "runs": runs,
                               "impl": got, "model(=spec)": expected},
                })
        # (d) whole pipelines: ranking vs model (sorted by (cost, path), exact fractions)
        q = 250 if ctx.tier == "quick" else 40000
        for i in range(q):
            db = filt.gen_db(rng)
            strat = rng.choice(["zeno", "linear"])
            cmds = [filt.gen_command(rng, db, odd=False, bad_ok=False) for _ in range(rng.randint(0, 4))]
            eq, impl, model = filt.compare(db, cmds, drv, strategy=strat)
            ctx.count("pipeline rankings", repr((sorted(db["programs"]), cmds, strat)), nontrivial=filt.nontrivial(impl, db))
            if not eq:
                n_dis += 1
                if n_dis <= 3:
                    filt.report_disagreement(ctx, "ranking / costs differ from the model", db, cmds, drv, strategy=strat)
        # (e), (f), witness: the knowledge set shared with the filter and mutated in place (round 10, c07_shared.py)
        n_before = len(ctx.violations)
        c07_shared.run_streams(ctx, drv, gen_taxon, gen_knowledge)
        n_dis += len(ctx.violations) - n_before
        ctx.cov["disagreements_checked"] = n_dis
        ctx.cov["float_envelope"] = {"max_depth_seen": maxdepth_seen, "max_total_seen": str(maxtotal_seen),
                                     "assumed": "depth <= 40 and totals < 2^12: every value is a dyadic rational exactly representable as a double"}
    finally:
        drv.close()
    ctx.cov["rule"] = (
        "(a) random taxon names (depth ≤ 8, every 10th ≤ 40, meta/ prefixes, empty edges) × prefix-closed or arbitrary knowledge sets × both "
        "strategies on a fresh assessor; (b) random histories of 2-12 set_imparted_knowledge / taxon_cost / assess steps on ONE assessor "
        "(40% with a second interleaved assessor), compared step by step with the pure recomputation (spec) and with the memoised model; "
        "(c) 1-3 run_pipeline calls on one Recommendations; (d) whole pipelines incl. imported taxa: ranking compared exactly "
        "(Fraction(float) vs Rat). Non-trivial: some non-zero cost (a); ≥1 knowledge change and ≥2 assessments (b). "
        "(e) random histories on a bare assessor over a heap of 1-3 set objects: mutate one IN PLACE (add / discard), set_imparted_knowledge(obj), "
        "another assessor constructed or set (class-level cache cleared), taxon_cost, assess — 40% generated as run_pipeline rounds; "
        "(f) a real Recommendations driven by run_pipeline / direct update_filter / assess / assess.taxon_cost, the in-place growth taken "
        "from the Lean filter model; every output compared with the Lean machine SState (cost.shared); inside the disciplined prefix "
        "a departure from the pure cost is a violation, a stale cost outside it is counted in documented_gap_reproduced (§11.6); "
        "the witness of C07_shared_direct_update_stale is replayed on both."
    )
    ctx.cov["trusted_base"] = core.BASE_TRUST + [
        "hand-written model of assess_costs.py (Model/Costs.lean) with exact rationals; float arithmetic is exact inside the stated envelope only",
        "Ctx.WF / well-formed databases for stream (d)",
        "hand-written heap model of the aliasing between the filter's knowledge set and the assessor (Model/CostsShared.lean): one lru_cache per class, "
        "keyed by (self, taxon), cleared by set_imparted_knowledge / __init__ of any instance; the state before the first set_imparted_knowledge "
        "(attribute missing) is outside the machine",
    ]
    ctx.cov["proved"] = ["C07_taxon_zero", "C07_taxon", "C07_zeno_sum", "C07_zeno_closed", "C07_linear", "C07_program", "C07_ranking",
                         "C07_history", "C07_knowledge_current", "C07_knowledge_as_set", "C07_recommender", "C07_program_taxa",
                         "C07_shared_mutation", "C07_shared_stale_characterised", "C07_shared_snapshot_cost", "C07_shared_snapshots",
                         "C07_shared_disciplined_sound", "C07_shared_run_pipeline_sound", "C07_shared_direct_update_stale"]
    ctx.cov["exercised_only"] = ["taxon_cost before the first set_imparted_knowledge (AttributeError: the attribute does not exist yet): checked once per run, outside the machines",
                                 "a direct update_filter followed by assess without run_pipeline returns stale costs (documented gap, §11.6): modelled exactly "
                                 "(C07_shared_direct_update_stale), reproduced on the real code, not a violation",
                                 "IEEE rounding outside the envelope"]
    finish_tie(ctx)
    return core.finish(ctx)


def replay(ctx, path):
    import json

    obj = json.load(open(path, encoding="utf-8"))
    if obj.get("kind") == "filter-disagreement":
        return filt.replay(ctx, path)
    if obj.get("kind") in ("shared-bare", "shared-recommender"):
        return c07_shared.replay(obj)
    core.import_repo()
    from paroxython.assess_costs import LearningCostAssessor

    if obj.get("kind") == "taxon-cost":
        a = LearningCostAssessor({}, obj["strategy"])
        a.set_imparted_knowledge(set(obj["knowledge"]))
        print("impl:", frac(a.taxon_cost(obj["taxon"])), "expected:", obj.get("model(=spec, by C07_taxon)"))
    elif obj.get("kind") == "assessor-history":
        a = LearningCostAssessor(obj["programs"], obj["strategy"])
        shared = set(obj["knowledge0"])
        a.set_imparted_knowledge(shared)
        for op in obj["ops"]:
            if op["kind"] == "set":
                if op.get("in_place"):
                    shared.clear(); shared.update(op["knowledge"]); a.set_imparted_knowledge(shared)
                else:
                    shared = set(op["knowledge"]); a.set_imparted_knowledge(shared)
                print("set", op["knowledge"], "(in place)" if op.get("in_place") else "")
            elif op["kind"] == "taxon":
                print("taxon_cost", op["taxon"], frac(a.taxon_cost(op["taxon"])))
            else:
                print("assess", op["selected"], [[frac(c), p] for c, p in a(set(op["selected"]))])
        print("expected:", obj.get("spec_outputs(pure recomputation)"))
    elif obj.get("kind") == "recommender-history":
        import contextlib, io, copy
        from paroxython.recommend_programs import Recommendations
        with contextlib.redirect_stdout(io.StringIO()), contextlib.redirect_stderr(io.StringIO()):
            rec = Recommendations(copy.deepcopy(obj["db"]), assessment_strategy=obj["strategy"])
            for cmds in obj["runs"]:
                rec.run_pipeline(filt.to_py_cmds(cmds))
        print("impl    :", [[frac(c), p] for c, p in rec.assessed_programs])
        print("expected:", obj.get("model(=spec)"))
    return 0
