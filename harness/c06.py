"""C06 — pipelines are monotone, order-independent and obey the documented equivalences."""
import copy

from . import core, filt
from .c04 import TRUST, finish_tie


def sets_of(res):
    return None if "exc" in res else res["final"]


def costs_of(res):
    return None if "exc" in res else res["ranking"]


def meta_violation(ctx, what, db, variants, results, split=None):
    ctx.violations.append({
        "what": what,
        "replay": {"kind": "metamorphic", "db": db, "pipelines": variants, "impl_results": results,
                   "one_call_per_command": split or [False] * len(variants),
                   "how": "Recommendations(db).run_pipeline(pipeline) for each pipeline (one call per command on the same "
                          "recommender where one_call_per_command says so): results must be equal"},
    })


def run(ctx):
    core.prove(ctx)
    core.import_repo()
    drv = core.Driver()
    rng = ctx.rng
    n_dis = 0
    try:
        n = 350 if ctx.tier == "quick" else 30000
        for i in range(n):
            db = filt.gen_db(rng)
            cmds = filt.gen_pipeline(rng, db, rng.randint(2, 5), odd=False)
            base = filt.run_real(db, cmds, steps=True)
            eq, impl, model = filt.compare(db, cmds, drv, steps=True)
            ctx.count("permutations+monotone", repr((sorted(db["programs"]), cmds)), nontrivial=filt.nontrivial(base, db))
            if not eq:
                n_dis += 1
                if n_dis <= 3:
                    filt.report_disagreement(ctx, "pipeline differs from the model", db, cmds, drv, steps=True)
                continue
            if "exc" not in base:
                # monotonicity, observed on the implementation between commands
                prev = {"selected": sorted(db["programs"]), "knowledge": [], "hiddenTaxa": [], "hiddenPrograms": []}
                for st in base["steps"]:
                    if "exc" in st:
                        break
                    if not (set(st["selected"]) <= set(prev["selected"]) and set(prev["knowledge"]) <= set(st["knowledge"])
                            and set(prev["hiddenTaxa"]) <= set(st["hiddenTaxa"]) and set(prev["hiddenPrograms"]) <= set(st["hiddenPrograms"])):
                        meta_violation(ctx, "not monotone", db, [cmds], [base["steps"]])
                        break
                    prev = st
            # the same commands handed over one run_pipeline call at a time, on one recommender
            one_by_one = filt.run_real(db, cmds, split=True)
            ctx.count("permutations+monotone", repr((sorted(db["programs"]), "split", cmds)), nontrivial=filt.nontrivial(base, db))
            if not ((("exc" in base) == ("exc" in one_by_one)) and sets_of(base) == sets_of(one_by_one) and costs_of(base) == costs_of(one_by_one)):
                meta_violation(ctx, "result differs when the commands are given one run_pipeline call at a time to the same recommender",
                               db, [cmds, cmds],
                               [base if "exc" in base else {"final": base["final"], "ranking": base["ranking"]},
                                one_by_one if "exc" in one_by_one else {"final": one_by_one["final"], "ranking": one_by_one["ranking"]}],
                               split=[False, True])
            # order independence: permutations give the same sets and the same costs
            for _ in range(3):
                perm = list(cmds)
                rng.shuffle(perm)
                other = filt.run_real(db, perm)
                ctx.count("permutations+monotone", repr((sorted(db["programs"]), perm)), nontrivial=filt.nontrivial(base, db))
                same = (("exc" in base) == ("exc" in other)) and sets_of(base) == sets_of(other) and costs_of(base) == costs_of(other)
                if not same:
                    meta_violation(ctx, "result depends on the order of the commands", db, [cmds, perm],
                                   [base if "exc" in base else {"final": base["final"], "ranking": base["ranking"]},
                                    other if "exc" in other else {"final": other["final"], "ranking": other["ranking"]}])
                    break
        # commands sharing a pattern that matches several taxa: every order of the commands, exhaustively (a pattern resolved
        # once must not be served from a memo that an earlier command altered — seeded change C06-d)
        import itertools
        import regex

        q = 120 if ctx.tier == "quick" else 8000
        for i in range(q):
            db = filt.gen_db(rng, min_programs=3)
            wide = [pat for pat in filt.TAXON_PATTERNS + [t[:rng.randint(1, len(t))] for t in db["taxa"]]
                    if sum(1 for t in db["taxa"] if regex.compile(f"{pat}\\b").match(t)) >= 2]
            if not wide:
                continue
            p1 = rng.choice(wide)
            p2 = rng.choice(wide) if rng.random() < 0.5 else filt.gen_taxon_pattern(rng, db)
            first = {"operation": rng.choice(["exclude", "include", "exclude all"]),
                     "data": [[p1, filt.gen_predicate(rng, rng.random() < 0.8, False), p2]]}
            second = {"operation": rng.choice(["include", "exclude", "impart", "include all"]),
                      "data": [rng.choice([p1, p1, [p1, filt.gen_predicate(rng, None, False), p2]])]}
            if second["operation"] == "impart" and not isinstance(second["data"][0], str):
                second["data"] = [p1]
            cmds = [first, second] + [filt.gen_command(rng, db, odd=False, bad_ok=False) for _ in range(rng.randint(0, 1))]
            results = []
            for perm in itertools.permutations(cmds):
                res = filt.run_real(db, list(perm))
                results.append((list(perm), res))
                ctx.count("shared wide pattern, all orders", repr((sorted(db["programs"]), perm)), nontrivial=filt.nontrivial(res, db))
            base_cmds, base = results[0]
            for perm, other in results[1:]:
                same = (("exc" in base) == ("exc" in other)) and sets_of(base) == sets_of(other) and costs_of(base) == costs_of(other)
                if not same:
                    meta_violation(ctx, "result depends on the order of the commands", db, [base_cmds, perm],
                                   [base if "exc" in base else {"final": base["final"], "ranking": base["ranking"]},
                                    other if "exc" in other else {"final": other["final"], "ranking": other["ranking"]}])
                    break
            eq, impl, model = filt.compare(db, cmds, drv)
            if not eq:
                n_dis += 1
                if n_dis <= 3:
                    filt.report_disagreement(ctx, "pipeline differs from the model", db, cmds, drv)
        # commands run_pipeline documents as IGNORED (not a dict, no operation, unknown operation, no data, data that is
        # neither a list nor a shell command) change nothing; `data` given as a shell command printing the patterns is the
        # list of those patterns; a criterion that is neither a string nor a triple is skipped under `any`
        g = 120 if ctx.tier == "quick" else 6000
        ignored_pool = [{"raw": {}}, {"raw": "include"}, {"raw": None}, {"raw": 42}, {"raw": {"operation": "sort", "data": ["a"]}},
                        {"raw": {"operation": "include"}}, {"raw": {"operation": "exclude", "data": []}},
                        {"raw": {"operation": "include", "data": 42}}, {"raw": {"operation": "hide", "data": None}},
                        {"raw": {"data": ["a"]}}, {"raw": ["include", "a"]}]
        safe = regex.compile(r"[\w/.]+$").match
        for i in range(g):
            db = filt.gen_db(rng)
            cmds = filt.gen_pipeline(rng, db, rng.randint(1, 4), odd=False, bad_ok=False)
            variant = []
            for c in cmds:
                if rng.random() < 0.5:
                    variant.append(rng.choice(ignored_pool))
                pats = [x for x in c["data"] if isinstance(x, str)]
                if pats and len(pats) == len(c["data"]) and all(safe(x) for x in pats) and rng.random() < 0.4:
                    variant.append({"raw": {"operation": c["operation"], "data": "printf '%s\\n' " + " ".join(pats)}})
                elif c["data"] and c["operation"].split()[0] in ("include", "exclude") and not c["operation"].endswith("all") and rng.random() < 0.3:
                    odd = rng.choice([42, None, ["a", "is"], ("a", "is", "b", "c"), 3.5])
                    variant.append({"raw": {"operation": c["operation"],
                                            "data": [x if isinstance(x, str) else tuple(x) for x in c["data"]] + [odd]}})
                else:
                    variant.append(c)
            if rng.random() < 0.5:
                variant.append(rng.choice(ignored_pool))
            ra, rb = filt.run_real(db, cmds), filt.run_real(db, variant)
            ctx.count("ignored / equivalent command forms", repr((sorted(db["programs"]), repr(variant))), nontrivial=filt.nontrivial(ra, db))
            same = (("exc" in ra) == ("exc" in rb)) and sets_of(ra) == sets_of(rb) and costs_of(ra) == costs_of(rb)
            # NOT a clause of C06 (the property says nothing of malformed commands): a difference is recorded as a lead in
            # the evidence, never as a violation — the stream is there so that these branches of run_pipeline are executed
            # under the monotonicity / order observations above and so that a change there is visible in the evidence
            ctx.dist("ignored/equivalent command forms: " + ("same result" if same else "DIFFERENT result (lead, see notes)"))
            if not same and len(ctx.notes) < 3:
                ctx.notes.append({"lead": "a command documented as ignored (or an equivalent form of a command) changed the result",
                                  "pipelines": [cmds, [c.get("raw", c) if isinstance(c, dict) else c for c in variant]]})
        # split / merge equivalences and hide neutrality
        m = 350 if ctx.tier == "quick" else 30000
        for i in range(m):
            db = filt.gen_db(rng)
            kind = i % 3
            crits = [filt.gen_criterion(rng, db, "include", bad_ok=False) for _ in range(rng.randint(1, 4))]
            prefix = [filt.gen_command(rng, db, odd=False) for _ in range(rng.randint(0, 2))]
            if kind == 0:
                a = prefix + [{"operation": "include all", "data": crits}]
                b = prefix + [{"operation": "include", "data": [c]} for c in crits]
                what = "`include all [c1..cn]` differs from n successive `include [ci]`"
            elif kind == 1:
                a = prefix + [{"operation": "exclude", "data": crits}]
                b = prefix + [{"operation": "exclude", "data": [c]} for c in crits]
                what = "`exclude [c1..cn]` differs from n successive `exclude [ci]`"
            else:
                hide = {"operation": "hide", "data": [filt.gen_criterion(rng, db, "hide") for _ in range(rng.randint(1, 3))]}
                a = prefix + [{"operation": "include", "data": crits}]
                b = list(a)
                b.insert(rng.randint(0, len(b)), hide)
                what = "`hide` changed the selection, the knowledge or a cost"
            ra, rb = filt.run_real(db, a), filt.run_real(db, b)
            ctx.count("split/merge/hide", repr((sorted(db["programs"]), a, b)), nontrivial=filt.nontrivial(ra, db))
            ctx.dist(["include-all-split", "exclude-split", "hide-neutral"][kind])
            if ("exc" in ra) != ("exc" in rb):
                meta_violation(ctx, what, db, [a, b], [ra, rb])
            elif "exc" not in ra:
                fa, fb = ra["final"], rb["final"]
                ok = fa["selected"] == fb["selected"] and fa["knowledge"] == fb["knowledge"] and ra["ranking"] == rb["ranking"]
                if kind != 2:
                    ok = ok and fa["hiddenTaxa"] == fb["hiddenTaxa"] and fa["hiddenPrograms"] == fb["hiddenPrograms"]
                if not ok:
                    meta_violation(ctx, what, db, [a, b], [ra, rb])
            eq, impl, model = filt.compare(db, b, drv)
            if not eq:
                n_dis += 1
                if n_dis <= 3:
                    filt.report_disagreement(ctx, "pipeline differs from the model", db, b, drv)
        # the meta/program equivalences
        k = 300 if ctx.tier == "quick" else 25000
        for i in range(k):
            db = filt.gen_db(rng, meta_program="always", imports=False)
            X = filt.gen_taxon_pattern(rng, db)
            import regex

            if any(regex.compile(f"{X}\\b").match(t) for t in db["taxa"] if regex.compile(r"meta/program\b").match(t)):
                continue
            neg = rng.choice(["not contains", "! contains", "contains not", "is not x≤y≤y≤x"])
            prefix = [filt.gen_command(rng, db, odd=False, bad_ok=False) for _ in range(rng.randint(0, 2))]
            if i % 2 == 0:
                a = prefix + [{"operation": "include", "data": [X]}]
                b = prefix + [{"operation": "exclude", "data": [["meta/program", neg, X]]}]
                what = "`include [X]` differs from `exclude [(meta/program, not contains, X)]`"
            else:
                a = prefix + [{"operation": "exclude", "data": [X]}]
                b = prefix + [{"operation": "include", "data": [["meta/program", neg, X]]}]
                what = "`exclude [X]` differs from `include [(meta/program, not contains, X)]`"
            ra, rb = filt.run_real(db, a), filt.run_real(db, b)
            ctx.count("meta/program equivalences", repr((sorted(db["programs"]), a, b)), nontrivial=filt.nontrivial(ra, db))
            if ("exc" in ra) != ("exc" in rb) or ("exc" not in ra and (ra["final"] != rb["final"] or ra["ranking"] != rb["ranking"])):
                meta_violation(ctx, what, db, [a, b], [ra, rb])
        ctx.cov["disagreements_checked"] = n_dis
        ctx.sample({"pipeline": cmds, "permutation": perm, "impl_final": base.get("final"), "impl_final_permuted": other.get("final")})
    finally:
        drv.close()
    ctx.cov["rule"] = (
        "random well-formed databases × pipelines of 2-5 commands: the implementation is run on the list (state after each command "
        "observed: monotonicity), on 3 random permutations (same sets and same ranking/costs), and compared with the model; pipelines whose "
        "commands share a pattern matching several taxa (a negated or positive triple, then the pattern alone or in another triple), run in EVERY order; split/merged "
        "variants of `include all` / `exclude`, `hide` insertions, and the two meta/program equivalences on import-free databases where "
        "every program has exactly one meta/program spanning it. Non-trivial as in C04; distinct = distinct (programs, pipeline[s])."
    )
    ctx.cov["trusted_base"] = TRUST
    ctx.cov["proved"] = ["C06_monotone", "C06_order_independent", "C06_include_all_split", "C06_exclude_split", "C06_hide_neutral",
                         "C06_include_iff_exclude_not", "C06_exclude_iff_include_not"]
    ctx.assumptions += ["Ctx.WF", "MetaHyp for the two meta/program equivalences (no imports, one meta/program occurrence containing every span, X disjoint from meta/program)"]
    finish_tie(ctx)
    return core.finish(ctx)


def replay(ctx, path):
    import json

    obj = json.load(open(path, encoding="utf-8"))
    if obj.get("kind") == "metamorphic":
        core.import_repo()
        splits = obj.get("one_call_per_command") or [False] * len(obj["pipelines"])
        for p, sp in zip(obj["pipelines"], splits):
            print(json.dumps(p, ensure_ascii=False), "(one call per command)" if sp else "", "->",
                  json.dumps(filt.run_real(obj["db"], p, split=sp), ensure_ascii=False)[:600])
        return 0
    return filt.replay(ctx, path)
