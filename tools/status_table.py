#!/usr/bin/env python3
"""Print a Markdown status table: per property, the theorems of Props/Cxx.lean (counted as obligations by
core.audit), the correspondence size of the last committed evidence, open findings."""
import json
import re
import sys
from pathlib import Path

V = Path(__file__).resolve().parent.parent
sys.path.insert(0, str(V))
from harness.core import theorems_of  # noqa

kf = json.load(open(V / "known_findings.json"))["findings"]
man = json.load(open(V / "MANIFEST.json"))
out = []
_print = print


def print(x):  # noqa: collect, then write between the markers of DESIGN.md when asked to
    out.append(x)


print("| id | theorems (Props/Cxx.lean) | evidence (last quick run) | fixed / open findings |")
print("|----|---------------------------|---------------------------|----------------------|")
for c in sorted(man["checks"], key=lambda c: c["property_id"]):
    pid = c["property_id"]
    names = [n.split(".")[-1] for n in theorems_of(pid)]
    ev = json.load(open(V / c["evidence_file"]))
    cov = ev["coverage"]
    fixed = [f["id"] for f in kf if f["property"] == pid and f["status"] == "fixed"]
    opn = [f["id"] for f in kf if f["property"] == pid and f["status"] == "finding"]
    shown = ", ".join(f"`{n}`" for n in names[:14]) + (f", … (+{len(names) - 14})" if len(names) > 14 else "")
    print(f"| {pid} | {len(names)}: {shown} | {cov['obligations']}/{cov['discharged']} discharged; "
          f"{cov['evaluations']} evaluations, {cov['distinct_nontrivial']} distinct non-trivial, {ev['wall_s']} s | "
          f"fixed: {', '.join(fixed) or '–'}; open: {', '.join(opn) or '–'} |")

if len(sys.argv) > 1 and sys.argv[1] == "--write":
    d = (V / "DESIGN.md").read_text(encoding="utf-8")
    a = d.index("<!-- STATUS-TABLE-BEGIN -->") + len("<!-- STATUS-TABLE-BEGIN -->")
    b = d.index("<!-- STATUS-TABLE-END -->")
    (V / "DESIGN.md").write_text(d[:a] + "\n" + "\n".join(out) + "\n" + d[b:], encoding="utf-8")
else:
    _print("\n".join(out))
