#!/venv/bin/python
"""Systematic single-site mutants of one module of /repo (AST level), to measure what the checks see.

usage: tools/mutate.py list <module.py>                       -> number of sites
       tools/mutate.py write <module.py> <k> <dest-file>      -> writes mutant k, prints a one-line description

This is a tool for building the machinery (DESIGN §11.8), not a check: nothing in MANIFEST.json calls it.
"""
import ast
import copy
import sys
from pathlib import Path

CMP = {ast.Lt: ast.LtE, ast.LtE: ast.Lt, ast.Gt: ast.GtE, ast.GtE: ast.Gt, ast.Eq: ast.NotEq, ast.NotEq: ast.Eq,
       ast.In: ast.NotIn, ast.NotIn: ast.In, ast.Is: ast.IsNot, ast.IsNot: ast.Is}
BIN = {ast.Add: ast.Sub, ast.Sub: ast.Add, ast.BitOr: ast.BitAnd, ast.BitAnd: ast.BitOr, ast.Mult: ast.Add}
METH = {"update": "intersection_update", "add": "discard", "union": "intersection", "intersection": "union",
        "difference_update": "update", "intersection_update": "update", "append": "remove", "extend": "append",
        "startswith": "endswith", "issubset": "issuperset", "any": "all", "all": "any", "min": "max", "max": "min",
        "match": "search", "fullmatch": "match", "sorted": "list", "discard": "add", "remove": "append", "subtract": "update",
        "setdefault": "get", "strip": "lstrip", "lower": "upper", "rstrip": "strip"}


class Sites(ast.NodeTransformer):
    """Visits the tree; at site number `target` applies the mutation (target = -1: just count)."""

    def __init__(self, target=-1):
        self.n = 0
        self.target = target
        self.desc = None

    def hit(self, node, what):
        k = self.n
        self.n += 1
        if k == self.target:
            self.desc = f"line {getattr(node, 'lineno', '?')}: {what}"
            return True
        return False

    def visit_FunctionDef(self, node):
        # skip docstrings (doctest-like examples are not code)
        body = node.body
        if body and isinstance(body[0], ast.Expr) and isinstance(getattr(body[0], "value", None), ast.Constant) and isinstance(body[0].value.value, str):
            node.body = [body[0]] + [self.visit(b) for b in body[1:]]
            node.body = [b for b in node.body if b is not None]
            for d in ("args",):
                setattr(node, d, self.visit(getattr(node, d)))
            return node
        return self.generic_visit(node)

    visit_AsyncFunctionDef = visit_FunctionDef

    def visit_Compare(self, node):
        node = self.generic_visit(node)
        for i, op in enumerate(node.ops):
            if type(op) in CMP and self.hit(node, f"{type(op).__name__} -> {CMP[type(op)].__name__}"):
                node = copy.deepcopy(node)
                node.ops[i] = CMP[type(op)]()
        return node

    def visit_BoolOp(self, node):
        node = self.generic_visit(node)
        if self.hit(node, f"{type(node.op).__name__} -> {'Or' if isinstance(node.op, ast.And) else 'And'}"):
            node = copy.deepcopy(node)
            node.op = ast.Or() if isinstance(node.op, ast.And) else ast.And()
        return node

    def visit_UnaryOp(self, node):
        node = self.generic_visit(node)
        if isinstance(node.op, ast.Not) and self.hit(node, "not x -> x"):
            return node.operand
        return node

    def visit_BinOp(self, node):
        node = self.generic_visit(node)
        if type(node.op) in BIN and self.hit(node, f"{type(node.op).__name__} -> {BIN[type(node.op)].__name__}"):
            node = copy.deepcopy(node)
            node.op = BIN[type(node.op)]()
        return node

    def visit_AugAssign(self, node):
        node = self.generic_visit(node)
        if type(node.op) in BIN and self.hit(node, f"aug {type(node.op).__name__} -> {BIN[type(node.op)].__name__}"):
            node = copy.deepcopy(node)
            node.op = BIN[type(node.op)]()
        return node

    def visit_Constant(self, node):
        v = node.value
        if isinstance(v, bool):
            if self.hit(node, f"{v} -> {not v}"):
                return ast.copy_location(ast.Constant(value=not v), node)
        elif isinstance(v, int) and -1 <= v <= 4:
            if self.hit(node, f"{v} -> {v + 1}"):
                return ast.copy_location(ast.Constant(value=v + 1), node)
            if v > 0 and self.hit(node, f"{v} -> {v - 1}"):
                return ast.copy_location(ast.Constant(value=v - 1), node)
        elif isinstance(v, str) and v in ("meta/", "/", "all", "any", ".py", "", " ", "_imported_", "include", "exclude", "impart", "hide"):
            if self.hit(node, f"{v!r} -> {(v + 'x')!r}"):
                return ast.copy_location(ast.Constant(value=v + "x"), node)
        return node

    def visit_Attribute(self, node):
        node = self.generic_visit(node)
        if node.attr in METH and self.hit(node, f".{node.attr} -> .{METH[node.attr]}"):
            node = copy.deepcopy(node)
            node.attr = METH[node.attr]
        return node

    def visit_Name(self, node):
        if node.id in ("any", "all", "min", "max", "sorted") and isinstance(node.ctx, ast.Load) and self.hit(node, f"{node.id} -> {METH[node.id]}"):
            return ast.copy_location(ast.Name(id=METH[node.id], ctx=ast.Load()), node)
        return node

    def visit_If(self, node):
        node = self.generic_visit(node)
        if self.hit(node, "if test -> True"):
            node = copy.deepcopy(node)
            node.test = ast.Constant(value=True)
        elif self.hit(node, "if test -> False"):
            node = copy.deepcopy(node)
            node.test = ast.Constant(value=False)
        return node

    def visit_IfExp(self, node):
        node = self.generic_visit(node)
        if self.hit(node, "a if c else b -> b if c else a"):
            node = copy.deepcopy(node)
            node.body, node.orelse = node.orelse, node.body
        return node

    def visit_Continue(self, node):
        if self.hit(node, "continue -> pass"):
            return ast.copy_location(ast.Pass(), node)
        if self.hit(node, "continue -> break"):
            return ast.copy_location(ast.Break(), node)
        return node

    def visit_Break(self, node):
        if self.hit(node, "break -> pass"):
            return ast.copy_location(ast.Pass(), node)
        return node

    def visit_Expr(self, node):
        node = self.generic_visit(node)
        if isinstance(node.value, ast.Call) and not (isinstance(node.value.func, ast.Name) and node.value.func.id.startswith("print")):
            if self.hit(node, "statement call removed"):
                return ast.copy_location(ast.Pass(), node)
        return node

    def visit_Subscript(self, node):
        node = self.generic_visit(node)
        sl = node.slice
        if isinstance(sl, ast.Slice):
            if sl.lower is None and self.hit(node, "[:b] -> [1:b]"):
                node = copy.deepcopy(node)
                node.slice.lower = ast.Constant(value=1)
            elif sl.upper is None and self.hit(node, "[a:] -> [a:-1]"):
                node = copy.deepcopy(node)
                node.slice.upper = ast.Constant(value=-1)
        return node

    def visit_Return(self, node):
        node = self.generic_visit(node)
        if node.value is not None and isinstance(node.value, (ast.Name, ast.Call, ast.BinOp)) and False:
            pass
        return node


def main():
    mode, path = sys.argv[1], Path(sys.argv[2])
    src = path.read_text(encoding="utf-8")
    tree = ast.parse(src)
    if mode == "list":
        s = Sites()
        s.visit(tree)
        print(s.n)
        return
    k, dest = int(sys.argv[3]), Path(sys.argv[4])
    s = Sites(k)
    new = s.visit(tree)
    ast.fix_missing_locations(new)
    dest.write_text(ast.unparse(new) + "\n", encoding="utf-8")
    print(s.desc)


main()
