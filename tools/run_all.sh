#!/bin/bash
# Run every claimed check (quick tier by default) on the unchanged tree, sequentially, and validate the evidence.
cd "$(dirname "$0")/.."
tier=${1:-quick}
fail=0
for p in $(python3 -c "import json;print(' '.join(c['property_id'] for c in json.load(open('MANIFEST.json'))['checks']))"); do
  out=$(timeout 3000 ./check $p --tier $tier 2>&1); code=$?
  echo "$out" | grep -E "^(OK|VIOLATION|KNOWN-FINDING|MACHINERY)" | sed "s/^/[$p exit=$code] /"
  [ $code -ne 0 ] && fail=1
done
python3-vt - <<'PY'
import json, jsonschema
m = json.load(open('MANIFEST.json')); jsonschema.validate(m, json.load(open('/root/.vp/MANIFEST.schema.json')))
sch = json.load(open('/root/.vp/EVIDENCE.schema.json'))
for c in m['checks']:
    e = json.load(open(c['evidence_file'])); jsonschema.validate(e, sch)
    assert e['coverage']['obligations'] == e['coverage']['discharged'] >= 1, c['property_id']
print('manifest and evidence valid')
PY
exit $fail
