#!/venv/bin/python
"""Confirm a seeded property-breaking change and run the checks against it.

usage: tools/seed_trial.py <seed-id> <property-id> <dir with SEED/patch.diff, SEED/demo.py, SEED/NOTE.md> [more property ids…]

Everything happens in scratch exports of /repo's HEAD under /tmp (removed at the end); /repo itself is
never touched here (other checks may be running against it): the checks are pointed at the patched copy
with PAROXY_REPO, which is the same as applying the patch to /repo and undoing it afterwards.
"""
import json
import os
import re
import shutil
import subprocess
import sys
import tempfile
from pathlib import Path

VERIF = Path(__file__).resolve().parent.parent
PY = "/venv/bin/python"


def sh(cmd, cwd=None, env=None, timeout=1800):
    r = subprocess.run(cmd, cwd=cwd, env=env, shell=isinstance(cmd, str), stdout=subprocess.PIPE, stderr=subprocess.STDOUT, text=True, timeout=timeout)
    return r.returncode, r.stdout


def export(dst):
    dst.mkdir(parents=True)
    code, out = sh(f"git -C /repo archive HEAD | tar -x -C {dst}")
    assert code == 0, out


def suite(d):
    env = dict(os.environ, PYTHONPATH=str(d))
    code, out = sh([PY, "-m", "pytest", "-q", "-p", "no:cacheprovider", "--timeout=900", "-rf"], cwd=d, env=env)
    failed = sorted(set(re.findall(r"^FAILED (\S+?)(?:\[| - |$)", out, re.M)))
    m = re.search(r"(\d+) failed, (\d+) passed", out)
    return (int(m.group(1)), int(m.group(2))) if m else None, failed


def main():
    sid, pid, src = sys.argv[1], sys.argv[2], Path(sys.argv[3])
    others = sys.argv[4:]
    out_dir = VERIF / "seeded" / sid
    out_dir.mkdir(parents=True, exist_ok=True)
    for f in ("patch.diff", "demo.py", "NOTE.md"):
        shutil.copy(src / "SEED" / f, out_dir / f)
    tmp = Path(tempfile.mkdtemp(prefix=f"seedchk-{sid}-"))
    meta = {"seed": sid, "breaks_property": pid, "repo_head": sh("git -C /repo rev-parse --short HEAD")[1].strip()}
    try:
        orig, patched = tmp / "orig", tmp / "patched"
        export(orig)
        export(patched)
        code, out = sh(["git", "apply", "--whitespace=nowarn", str(out_dir / "patch.diff")], cwd=patched)
        if code != 0:
            code, out = sh(["patch", "-p1", "-i", str(out_dir / "patch.diff")], cwd=patched)
        meta["patch_applies"] = code == 0
        assert code == 0, out
        for name, d in (("orig", orig), ("patched", patched)):
            shutil.copy(out_dir / "demo.py", d / "demo.py")
            c, o = sh([PY, "demo.py"], cwd=d, env=dict(os.environ, PYTHONPATH=str(d)))
            meta[f"demo_{name}"] = {"exit": c, "tail": o.strip().splitlines()[-3:]}
            (d / "demo.py").unlink()
        so, fo = suite(orig)
        sp, fp = suite(patched)
        sh("git init -q . && git add -A && git commit -qm x", cwd=orig)  # suite rewrites examples/: irrelevant here
        meta["suite_orig"], meta["suite_patched"], meta["same_failing_tests"] = so, sp, fo == fp
        meta["confirmed"] = (meta["demo_orig"]["exit"] == 0 and meta["demo_patched"]["exit"] != 0 and so == sp and fo == fp)
        # the suite rewrote snapshot files in `patched`; restore a clean patched export for the checks
        shutil.rmtree(patched)
        export(patched)
        sh(["git", "apply", "--whitespace=nowarn", str(out_dir / "patch.diff")], cwd=patched)
        meta["checks"] = {}
        # the checks run from a private copy of /verif (build output included): trials running in parallel neither
        # overwrite each other's replays/ nor regenerate lean/Paroxy/Gen under each other's feet
        vcopy = tmp / "verif"
        sh(["rsync", "-a", "--exclude", ".git", "--exclude", "seeded", "--exclude", "replays", "--exclude", "evidence", f"{VERIF}/", f"{vcopy}/"])
        for p in [pid] + others:
            runs = []
            for seed in (0, 1):
                env = dict(os.environ, PAROXY_REPO=str(patched), VERIF_SEED=str(seed), VERIF_EVIDENCE_DIR=str(tmp / "evidence"))
                c, o = sh(["./check", p, "--tier", "quick"], cwd=vcopy, env=env)
                line = [l for l in o.splitlines() if l.startswith(("VIOLATION", "OK ", "KNOWN-FINDING", "MACHINERY"))]
                replay = None
                m = re.search(r"replay=(\S+)", o)
                if m and (vcopy / m.group(1)).exists():
                    keep = out_dir / f"replay-{p}-seed{seed}.json"
                    shutil.copy(vcopy / m.group(1), keep)
                    replay = str(keep.relative_to(VERIF))
                runs.append({"seed": seed, "exit": c, "lines": line[-3:], "replay": replay})
            meta["checks"][p] = runs
        meta["caught_by"] = [p for p, runs in meta["checks"].items() if any(r["exit"] == 1 for r in runs)]
        meta["what_it_needs"] = "see NOTE.md"
        meta["ran"] = "tools/seed_trial.py: demo on clean/patched export of /repo HEAD, full suite on both, ./check <id> --tier quick with PAROXY_REPO=<patched export>, seeds 0 and 1"
    finally:
        shutil.rmtree(tmp, ignore_errors=True)
        # restore evidence of the unchanged tree
    (out_dir / "meta.json").write_text(json.dumps(meta, indent=1, ensure_ascii=False))
    print(json.dumps({k: meta[k] for k in ("seed", "confirmed", "caught_by")}, ensure_ascii=False))
    print(json.dumps(meta.get("checks"), ensure_ascii=False)[:1500])


if __name__ == "__main__":
    main()
