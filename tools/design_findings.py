#!/venv/bin/python
"""Regenerate the table of DESIGN.md §11.2 (repairs and recorded findings) from known_findings.json."""
import json
import re
from pathlib import Path

V = Path(__file__).resolve().parent.parent
WHY = {
    "F38": "whether `import b` is internal is decided by the presence of b.py in the collection, bad or not; treating an unparsable file as absent for import resolution would change the documented meaning of internal imports — not a defect to patch, a proviso the property text does not state.",
    "F39": "only the implicit-concatenation form has a small patch (STRING followed by (STRING|COMMENT)* NEWLINE, which needs loop state to drop the following tokens); the parenthesised and `;` forms need the statement structure, i.e. the parser. Only the clause 'unchanged by inserting docstrings' is affected; the output stays valid, idempotent, same tree.",
    "F35": "collect and recommend use the lexical parent/name of DIRECTORY consistently (recommend `.` finds the `_db.json` that collect `.` writes); making both absolute changes recommend's `relative=` title field and the paths printed — not a one-line patch.",
    "F17-C01": "`spec.md`'s patterns are searched over the whole flat text, string constants included; a repair needs either escaping `_pos=`/`=` inside dumped values in `flatten_ast.py` (changes the documented flat format that users write their own features against) or anchoring all 170 feature patterns — not small.",
    "F31": "the derived-label SQL joins propagate the path of the *hint-added* occurrence, which is empty; giving added labels a path means inventing an AST position for an arbitrary line range — a design change, not a patch.",
    "F49": "parsing the raw text instead of the stored one (or not trimming the blank ends) would change the stored source of VALID programs too (a program starting with a form feed, ending with blank lines or separators) and with it the 'verbatim, blank ends trimmed' statements of C11/C12 and the numbering of hints (C02/C12): not a small, safe change. The reported program is what remains once the blank ends are dropped; only the words of C14 ('content that is not valid Python is tagged meta/ast/<ErrorName>') are contradicted.",
    "F32": "same root as F17: `whole_span`'s pattern is not anchored to line starts of the flat dump and matches `_pos=` inside a dumped string value.",
}


def clean(t):
    return t.replace("|", "\\|").replace("\n", " ")


def main():
    s = (V / "DESIGN.md").read_text(encoding="utf-8")
    kf = json.load(open(V / "known_findings.json"))["findings"]
    a = s.index("| id | property | commit | defect")
    b = s.index("### 11.3")
    rows = ["| id | property | commit | defect (input → observed) |", "|----|----------|--------|--------|"]
    for f in kf:
        if f["status"] == "fixed":
            w = re.sub(r"^fixed: property=\S+ \S+ ", "", f["what"])
            rows.append(f"| {f['id']} | {f['property']} | {f['commit']} | {clean(w)} |")
    out = "\n".join(rows) + ("\n\nRecorded, not repaired (status `finding` in `known_findings.json`; the checks print one\n"
                             "`KNOWN-FINDING` line each and still report any other violation of the same property):\n\n")
    for f in kf:
        if f["status"] == "finding":
            w = re.sub(r"^finding: ", "", f["what"])
            out += f"* **{f['id']}** ({f['property']}) — {w} Signature `{f.get('signature', '')}`. *Why not repaired:* {WHY.get(f['id'], '')}\n"
    (V / "DESIGN.md").write_text(s[:a] + out + "\n" + s[b:], encoding="utf-8")


main()
