#!/venv/bin/python
"""Run the quick checks against every single-site mutant of one module (see tools/mutate.py).

usage: tools/mutation_run.py <module> <check,check,...> [workers]
Writes /tmp/mut/results-<module>.jsonl (one line per mutant: site, description, exit code per check).
Scratch only (/tmp/mut); /repo and /verif are not touched: each worker has its own export of /repo's HEAD and its own
worktree copy of /verif (with the lake build), so nothing is shared between concurrent runs.
"""
import json
import os
import shutil
import subprocess
import sys
from concurrent.futures import ThreadPoolExecutor
from pathlib import Path

VERIF = Path(__file__).resolve().parent.parent
ROOT = Path("/tmp/mut")


def sh(cmd, **kw):
    return subprocess.run(cmd, shell=isinstance(cmd, str), stdout=subprocess.PIPE, stderr=subprocess.STDOUT, text=True, **kw)


def setup_worker(i):
    w = ROOT / f"w{i}"
    if not (w / "verif" / "check").exists():
        shutil.rmtree(w, ignore_errors=True)
        (w / "repo").mkdir(parents=True)
        sh(f"git -C /repo archive HEAD | tar -x -C {w / 'repo'}")
        sh(f"git -C {VERIF} archive HEAD | tar -x -C {w}/verif", cwd="/") if False else None
        (w / "verif").mkdir()
        sh(f"git -C {VERIF} archive HEAD | tar -x -C {w / 'verif'}")
        shutil.copytree(VERIF / "lean" / ".lake", w / "verif" / "lean" / ".lake", symlinks=True)
    return w


def run_mutant(i, module, k, checks):
    w = ROOT / f"w{i}"
    target = w / "repo" / "paroxython" / f"{module}.py"
    orig = Path("/repo/paroxython") / f"{module}.py"
    r = sh([str(VERIF / "tools" / "mutate.py"), "write", str(orig), str(k), str(target)])
    desc = r.stdout.strip().splitlines()[-1] if r.stdout.strip() else "?"
    out = {"module": module, "site": k, "desc": desc, "checks": {}}
    env = dict(os.environ, PAROXY_REPO=str(w / "repo"), VERIF_EVIDENCE_DIR=str(w / "ev"), VERIF_SEED="0")
    for c in checks:
        try:
            p = subprocess.run(["./check", c], cwd=w / "verif", env=env, stdout=subprocess.PIPE, stderr=subprocess.STDOUT, text=True, timeout=900)
            line = [l for l in p.stdout.splitlines() if l.startswith(("VIOLATION", "OK ", "MACHINERY"))]
            out["checks"][c] = {"exit": p.returncode, "line": (line[-1] if line else p.stdout.strip().splitlines()[-1:] or [""])[:1] if not line else line[-1][:160]}
        except subprocess.TimeoutExpired:
            out["checks"][c] = {"exit": "timeout"}
        if out["checks"][c]["exit"] == 1:
            break  # killed
    shutil.copy(orig, target)
    return out


def main():
    module, checks = sys.argv[1], sys.argv[2].split(",")
    workers = int(sys.argv[3]) if len(sys.argv) > 3 else 4
    ROOT.mkdir(exist_ok=True)
    n = int(sh([str(VERIF / "tools" / "mutate.py"), "list", f"/repo/paroxython/{module}.py"]).stdout.strip().splitlines()[-1])
    for i in range(workers):
        setup_worker(i)
    res_path = ROOT / f"results-{module}.jsonl"
    done = set()
    if res_path.exists():
        done = {json.loads(l)["site"] for l in res_path.read_text().splitlines() if l.strip()}
    todo = [k for k in range(n) if k not in done]
    import queue
    import threading

    q = queue.Queue()
    for k in todo:
        q.put(k)
    lock = threading.Lock()

    def worker(i):
        while True:
            try:
                k = q.get_nowait()
            except queue.Empty:
                return
            out = run_mutant(i, module, k, checks)
            with lock:
                with open(res_path, "a") as f:
                    f.write(json.dumps(out) + "\n")

    ts = [threading.Thread(target=worker, args=(i,)) for i in range(workers)]
    [t.start() for t in ts]
    [t.join() for t in ts]
    rows = [json.loads(l) for l in res_path.read_text().splitlines() if l.strip()]
    killed = sum(1 for r in rows if any(c["exit"] == 1 for c in r["checks"].values()))
    err = sum(1 for r in rows if not any(c["exit"] == 1 for c in r["checks"].values()) and any(c["exit"] not in (0, 1) for c in r["checks"].values()))
    print(json.dumps({"module": module, "mutants": len(rows), "killed (VIOLATION)": killed, "machinery error / timeout only": err,
                      "survived": len(rows) - killed - err}))


main()
